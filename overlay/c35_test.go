//go:build verif

// Runtime monitor for property C35 ("Session tokens cannot be forged, outlive expiry, or survive
// logout"). Compiled INTO package main of /repo/tools/httpserver through `go test -overlay`
// (the tree is never edited). Driven by /verif/harness/props/c35.
//
// Everything is observed at the server's own entry points: currentTokenFacade().ValidateToken /
// Refresh / RevokeToken / CreateSession / CreateToken (the facade requireAuth and handleRefresh
// use). Tokens are issued by the real code with the real signing secret lookup.
//
// The test always PASSES; verdicts are the C35-VIOLATION / C35-SANITY / C35-SUMMARY lines and the
// evidence file. No sleeping and no instant closer than one hour to "now" decides anything.
package main

import (
	"context"
	"crypto/hmac"
	"crypto/sha256"
	"encoding/base64"
	"encoding/json"
	"fmt"
	"hash/fnv"
	"io"
	"log/slog"
	"math/rand"
	"os"
	"strconv"
	"strings"
	"sync"
	"testing"
	"time"
)

const c35B64 = "ABCDEFGHIJKLMNOPQRSTUVWXYZabcdefghijklmnopqrstuvwxyz0123456789-_"

// c35FreshTTLMinutes: access-token lifetime of the "fresh" facade (6 h): far from the run's duration,
// so "unexpired" never depends on how long the test takes.
const c35FreshTTLMinutes = 360

type c35Mon struct {
	seed      int64
	tier      string
	rnd       *rand.Rand
	ctx       context.Context
	secret    string
	evals     int64
	trivial   int64
	fps       map[string]int64
	samples   []any
	sampleCls map[string]int
	counters  map[string]int64
	vioCount  map[string]int64
	sanity    []string
	issued    map[string]bool // every access token the server issued to the forgery monitor
}

func (m *c35Mon) thorough() bool { return m.tier == "thorough" }
func (m *c35Mon) pick(q, t int) int {
	if m.thorough() {
		return t
	}
	return q
}

// eval records one decided case. nontrivial: the verdict was attributable to the thing under test
// (e.g. the unmutated base token was accepted, the token was unexpired when it was revoked).
func (m *c35Mon) eval(fp string, nontrivial bool) {
	m.evals++
	if nontrivial {
		m.fps[fp]++
	} else {
		m.trivial++
	}
}

func (m *c35Mon) sample(cls string, v map[string]any) {
	if m.sampleCls[cls] >= 1 || len(m.samples) >= 12 {
		return
	}
	m.sampleCls[cls]++
	v["class"] = cls
	m.samples = append(m.samples, v)
}

func (m *c35Mon) violation(sig string, detail map[string]any) {
	m.vioCount[sig]++
	if m.vioCount[sig] > 20 { // at most 20 literal cases per signature on stdout; all are counted
		return
	}
	detail["seed"] = m.seed
	detail["tier"] = m.tier
	b, _ := json.Marshal(detail)
	fmt.Printf("C35-VIOLATION signature=%s detail=%s\n", sig, b)
}

// sanityFail: the monitor's own precondition failed (a freshly issued, unexpired, unrevoked token was
// refused). The statement does not forbid that, but it makes every "must reject" verdict vacuous,
// so the run is reported as broken rather than as held or violated.
func (m *c35Mon) sanityFail(format string, a ...any) {
	msg := fmt.Sprintf(format, a...)
	if len(m.sanity) < 20 {
		fmt.Printf("C35-SANITY %s\n", msg)
	}
	m.sanity = append(m.sanity, msg)
}

// validate presents a bearer token to the server's validation entry point.
func (m *c35Mon) validate(token string) (bool, *UserRecord, string) {
	m.counters["validate_calls"]++
	u, err := currentTokenFacade().ValidateToken(m.ctx, token)
	if err != nil || u == nil {
		return false, nil, fmt.Sprint(err)
	}
	return true, u, ""
}

func c35Sign(secret []byte, header, payload string) string {
	mac := hmac.New(sha256.New, secret)
	mac.Write([]byte(header + "." + payload))
	return header + "." + payload + "." + base64.RawURLEncoding.EncodeToString(mac.Sum(nil))
}

func c35Clip(s string) string {
	if len(s) > 400 {
		return s[:400] + "...(" + strconv.Itoa(len(s)) + " bytes)"
	}
	return s
}

// ---------------------------------------------------------------------------------------------
// Monitor 1: forgery. Every derived token differs from the issued one (checked), so the statement
// ("issued by the server with its current secret, unmodified") demands rejection of each.
// ---------------------------------------------------------------------------------------------

func (m *c35Mon) forged(base, forgedTok, fp string, baseOK bool, extra map[string]any) {
	if forgedTok == base || m.issued[forgedTok] {
		return // not a modification / identical to another token the server really issued
	}
	ok, u, _ := m.validate(forgedTok)
	m.eval(fp, baseOK)
	m.counters["forgery_cases"]++
	d := map[string]any{"issued_token": base, "presented_token": c35Clip(forgedTok), "expected": "rejected", "accepted": ok}
	for k, v := range extra {
		d[k] = v
	}
	m.sample(fp, d)
	if ok {
		d["accepted_as"] = u
		parts := strings.SplitN(fp, ":", 3)
		m.violation("C35:forgery:"+parts[1]+":accepted", d)
	}
}

func posBucket(i, n int) string {
	switch {
	case i == 0:
		return "first"
	case i == n-1:
		return "last"
	default:
		return "mid"
	}
}

func (m *c35Mon) forgeryFor(label, base, user, role string, other string) {
	m.issued[base], m.issued[other] = true, true
	ok, u, why := m.validate(base)
	if !ok {
		m.sanityFail("forgery base token (%s) refused when issued: %s", label, why)
	} else if u.Username != user || u.Role != role {
		m.violation("C35:forgery:identity:accepted-as-other-user", map[string]any{"token": base, "issued_for": user + "/" + role, "accepted_as": u})
	}
	baseOK := ok
	parts := strings.Split(base, ".")
	if len(parts) != 3 {
		m.sanityFail("issued access token does not have 3 parts: %q", base)
		return
	}
	names := []string{"header", "payload", "signature"}
	join := func(p []string) string { return strings.Join(p, ".") }

	// (a) every single-character substitution of every part
	alts := m.pick(2, 4)
	for pi, p := range parts {
		for i := 0; i < len(p); i++ {
			for a := 0; a < alts; a++ {
				c := c35B64[m.rnd.Intn(64)]
				for c == p[i] {
					c = c35B64[m.rnd.Intn(64)]
				}
				q := append([]string{}, parts...)
				q[pi] = p[:i] + string(c) + p[i+1:]
				m.forged(base, join(q), "forge:subst-"+names[pi]+":b64:"+posBucket(i, len(p)), baseOK, map[string]any{"part": names[pi], "pos": i, "char": string(c)})
			}
			// case flip / characters outside the alphabet at every position
			for _, c := range []byte{p[i] ^ 0x20, '=', '+', ' '} {
				if c == p[i] || (!m.thorough() && c != p[i]^0x20 && i%7 != 0) {
					continue
				}
				cls := "nonb64"
				if c == p[i]^0x20 {
					cls = "bitflip"
				}
				q := append([]string{}, parts...)
				q[pi] = p[:i] + string(c) + p[i+1:]
				m.forged(base, join(q), "forge:subst-"+names[pi]+":"+cls+":"+posBucket(i, len(p)), baseOK, map[string]any{"part": names[pi], "pos": i, "char": string(c)})
			}
		}
	}
	// (a') the last signature character carries 2 unused bits: change only those (a verifier that
	// decodes leniently and compares bytes would accept a modified token)
	sig := parts[2]
	if idx := strings.IndexByte(c35B64, sig[len(sig)-1]); idx >= 0 {
		for d := 1; d < 4; d++ {
			c := c35B64[(idx&^3)|((idx+d)&3)]
			m.forged(base, join([]string{parts[0], parts[1], sig[:len(sig)-1] + string(c)}), "forge:subst-signature:unused-tail-bits", baseOK, map[string]any{"char": string(c)})
		}
	}
	// (b) deletion / insertion of one character at every position of the whole token
	step := 1
	for i := m.rnd.Intn(step); i < len(base); i += step {
		part := names[strings.Count(base[:i], ".")]
		m.forged(base, base[:i]+base[i+1:], "forge:delete-char:"+part, baseOK, map[string]any{"pos": i})
		c := c35B64[m.rnd.Intn(64)]
		m.forged(base, base[:i]+string(c)+base[i:], "forge:insert-char:"+part, baseOK, map[string]any{"pos": i, "char": string(c)})
	}
	for _, sfx := range []string{"A", "=", ".", " ", "\n", "\x00", "." + parts[2]} {
		m.forged(base, base+sfx, "forge:append:"+fmt.Sprintf("%q", sfx[:1]), baseOK, nil)
		m.forged(base, sfx+base, "forge:prepend:"+fmt.Sprintf("%q", sfx[:1]), baseOK, nil)
	}
	// (c) truncation to every proper prefix
	for n := 0; n < len(base); n += step {
		part := names[strings.Count(base[:n], ".")]
		m.forged(base, base[:n], "forge:truncate:in-"+part, baseOK, map[string]any{"len": n})
	}
	// (d) part swaps, duplications, empty parts, part mixes with another validly issued token
	h, p, s := parts[0], parts[1], parts[2]
	for _, q := range [][]string{{h, s, p}, {p, h, s}, {p, s, h}, {s, h, p}, {s, p, h}} {
		m.forged(base, join(q), "forge:swap-parts:permutation", baseOK, nil)
	}
	for _, q := range [][]string{{h, p, p}, {h, h, s}, {h, p, h}, {s, s, s}, {h, p, s, s}, {h, p, s, ""}, {"", h, p, s}} {
		m.forged(base, join(q), "forge:swap-parts:duplicate", baseOK, nil)
	}
	for _, q := range [][]string{{h, p, ""}, {h, "", s}, {"", p, s}, {h, p}, {p, s}, {h}, {p}, {s}, {"", "", ""}, {""}} {
		m.forged(base, join(q), "forge:swap-parts:empty-part", baseOK, nil)
	}
	op := strings.Split(other, ".")
	if len(op) == 3 {
		for mask := 1; mask < 7; mask++ {
			q := []string{h, p, s}
			for b := 0; b < 3; b++ {
				if mask&(1<<b) != 0 {
					q[b] = op[b]
				}
			}
			m.forged(base, join(q), "forge:swap-parts:mix-two-issued-tokens", baseOK, map[string]any{"other_issued_token": other, "mask": mask})
		}
	}
	// (e) same header and payload signed with a secret that is not the server's
	secrets := []string{"", "sop-session-default-secret", m.secret + "x", m.secret[:len(m.secret)-1], strings.ToUpper(m.secret), " " + m.secret, "secret", "\x00"}
	for i := 0; i < m.pick(8, 64); i++ {
		b := make([]byte, 1+m.rnd.Intn(48))
		m.rnd.Read(b)
		secrets = append(secrets, string(b))
	}
	for _, sec := range secrets {
		if strings.TrimSpace(sec) == m.secret {
			continue // the server trims its configured secret: this IS the server's secret
		}
		m.forged(base, c35Sign([]byte(sec), h, p), "forge:other-secret:same-claims", baseOK, map[string]any{"forger_secret": fmt.Sprintf("%q", sec)})
	}
	// (f) crafted claims (privilege escalation, eternal expiry) with the old signature, a foreign
	// secret, no signature, alg=none, signature in another encoding
	raw, _ := base64.RawURLEncoding.DecodeString(p)
	var cl signedAccessClaims
	_ = json.Unmarshal(raw, &cl)
	esc := cl
	esc.Role, esc.Subject, esc.ExpiresAt = "admin", "root", cl.ExpiresAt+int64(1000*3600)
	escJSON, _ := json.Marshal(esc)
	ep := base64.RawURLEncoding.EncodeToString(escJSON)
	none := base64.RawURLEncoding.EncodeToString([]byte(`{"alg":"none","typ":"JWT"}`))
	m.forged(base, join([]string{h, ep, s}), "forge:crafted-claims:old-signature", baseOK, map[string]any{"claims": esc})
	m.forged(base, c35Sign([]byte("attacker"), h, ep), "forge:crafted-claims:other-secret", baseOK, map[string]any{"claims": esc})
	m.forged(base, join([]string{none, ep, ""}), "forge:crafted-claims:alg-none", baseOK, map[string]any{"claims": esc})
	m.forged(base, join([]string{none, p, ""}), "forge:crafted-claims:alg-none", baseOK, nil)
	m.forged(base, join([]string{none, p, s}), "forge:crafted-claims:alg-none", baseOK, nil)
	mac := hmac.New(sha256.New, []byte(m.secret))
	mac.Write([]byte(h + "." + p))
	sum := mac.Sum(nil)
	m.forged(base, join([]string{h, p, fmt.Sprintf("%x", sum)}), "forge:signature-encoding:hex", baseOK, nil)
	m.forged(base, join([]string{h, p, base64.StdEncoding.EncodeToString(sum)}), "forge:signature-encoding:std-padded", baseOK, nil)
	m.forged(base, join([]string{h, p, s + "="}), "forge:signature-encoding:padded", baseOK, nil)
	plain := sha256.Sum256([]byte(h + "." + ep))
	m.forged(base, join([]string{h, ep, base64.RawURLEncoding.EncodeToString(plain[:])}), "forge:crafted-claims:unkeyed-hash", baseOK, nil)

	// the issued token must still be accepted: rejections above were due to the modification
	if ok2, _, why := m.validate(base); baseOK && !ok2 {
		m.sanityFail("forgery base token (%s) refused after the mutation battery: %s", label, why)
	}
}

func (m *c35Mon) monitorForgery() {
	f := currentTokenFacade()
	type ident struct{ user, role string }
	ids := []ident{{"root", "admin"}, {"Alice Smith", "user"}, {"gäst-" + strconv.FormatInt(m.seed, 10), "guest"}}
	n := m.pick(3, 9)
	var prev string
	prev, _, _ = f.CreateSession(m.ctx, "other", "user")
	for i := 0; i < n; i++ {
		id := ids[i%len(ids)]
		var tok string
		var err error
		label := ""
		switch i % 3 {
		case 0:
			label = "CreateSession"
			tok, _, err = f.CreateSession(m.ctx, id.user, id.role)
		case 1:
			label = "Refresh"
			var rt string
			if _, rt, err = f.CreateSession(m.ctx, id.user, id.role); err == nil {
				tok, _, err = f.Refresh(m.ctx, rt)
			}
		case 2:
			label = "CreateToken"
			tok, err = f.CreateToken(m.ctx, id.user, id.role)
		}
		if err != nil {
			m.sanityFail("forgery: %s failed: %v", label, err)
			continue
		}
		m.forgeryFor(label, tok, id.user, id.role, prev)
		prev = tok
	}
}

// ---------------------------------------------------------------------------------------------
// Monitor 2: expiry. Instants are whole hours away from now.
// ---------------------------------------------------------------------------------------------

func hoursBucket(h int) string {
	switch {
	case h <= 2:
		return "1-2h"
	case h <= 24:
		return "3-24h"
	default:
		return ">24h"
	}
}

func (m *c35Mon) monitorExpiry() {
	n := m.pick(150, 1500)
	for i := 0; i < n; i++ {
		h := 1 + m.rnd.Intn(96)
		if i%5 == 0 {
			h = 1 + m.rnd.Intn(2)
		}
		past := i%3 != 2
		now := time.Now().UTC()
		life := time.Duration(1+m.rnd.Intn(48)) * time.Hour
		var exp time.Time
		if past {
			exp = now.Add(-time.Duration(h) * time.Hour)
		} else {
			exp = now.Add(time.Duration(h) * time.Hour)
		}
		iat := exp.Add(-life)
		iatCls := "iat-before-exp"
		if i%7 == 3 { // issued-at in the future / after exp must not rescue an expired token
			iat = now.Add(time.Duration(1+m.rnd.Intn(48)) * time.Hour)
			iatCls = "iat-in-future"
		}
		jti, _ := newToken()
		// signed by the server's own signing function with its current secret (server-issued form)
		tok, err := signAccessToken("root", "admin", iat, exp, jti)
		if err != nil {
			m.sanityFail("signAccessToken: %v", err)
			continue
		}
		ok, _, why := m.validate(tok)
		d := map[string]any{"token": tok, "iat": iat.Unix(), "exp": exp.Unix(), "now": now.Unix(), "hours_from_now": h, "accepted": ok}
		if past {
			fp := "expiry:signed-unstored:past:" + hoursBucket(h) + ":" + iatCls
			m.eval(fp, true)
			m.sample(fp, d)
			if ok {
				d["expected"] = "rejected"
				m.violation("C35:expiry:signed-token:accepted-after-exp", d)
			}
		} else {
			// acceptance of an unexpired token is the monitor's sensitivity precondition, not a demand of the statement
			fp := "expiry:signed-unstored:future:" + hoursBucket(h) + ":" + iatCls
			m.eval(fp, true)
			m.sample(fp, d)
			if !ok {
				m.sanityFail("server-signed token with exp %dh in the future refused: %s", h, why)
			}
		}
	}
	// special expiry values
	for _, e := range []int64{0, -1, 1, -1 << 62} {
		jti, _ := newToken()
		tok, _ := signAccessToken("root", "admin", time.Unix(e, 0).Add(-time.Hour), time.Unix(e, 0), jti)
		ok, _, _ := m.validate(tok)
		m.eval("expiry:signed-unstored:past:extreme-exp", true)
		if ok {
			m.violation("C35:expiry:signed-token:accepted-after-exp", map[string]any{"token": tok, "exp": e, "expected": "rejected"})
		}
	}
	// sessions issued by a store whose access TTL is negative: issued through the real
	// CreateSession / CreateToken, already expired by whole hours, and present in the session table.
	n2 := m.pick(40, 300)
	for i := 0; i < n2; i++ {
		h := 1 + m.rnd.Intn(72)
		st := &SessionStore{ttl: -time.Duration(h) * time.Hour, refreshTTL: defaultRefreshTTL}
		var tok, kind string
		var err error
		if i%2 == 0 {
			kind = "CreateSession"
			tok, _, err = st.CreateSession(m.ctx, "root", "admin")
		} else {
			kind = "CreateToken"
			tok, err = st.CreateToken(m.ctx, "root", "admin")
		}
		if err != nil {
			m.sanityFail("expiry: %s with negative ttl failed: %v", kind, err)
			continue
		}
		for rep := 0; rep < 2; rep++ { // second presentation: after the server's own expired-session cleanup
			ok, _, _ := m.validate(tok)
			fp := fmt.Sprintf("expiry:stored-%s:past:%s:presentation-%d", kind, hoursBucket(h), rep+1)
			m.eval(fp, true)
			d := map[string]any{"token": tok, "issued_by": kind, "ttl_hours": -h, "presentation": rep + 1, "accepted": ok}
			m.sample(fp, d)
			if ok {
				d["expected"] = "rejected"
				m.violation("C35:expiry:stored-session:accepted-after-exp", d)
			}
		}
	}
	// OBSERVATION ONLY (not asserted: the statement speaks about expiry of access tokens only):
	// does a refresh token whose own lifetime ended hours ago still mint access tokens?
	for i := 0; i < m.pick(4, 20); i++ {
		h := 1 + m.rnd.Intn(72)
		st := &SessionStore{ttl: time.Duration(c35FreshTTLMinutes) * time.Minute, refreshTTL: -time.Duration(h) * time.Hour}
		_, rt, err := st.CreateSession(m.ctx, "root", "admin")
		if err != nil {
			continue
		}
		m.counters["obs_expired_refresh_token_presented"]++
		if _, _, err := currentTokenFacade().Refresh(m.ctx, rt); err == nil {
			m.counters["obs_expired_refresh_token_minted_access"]++
		}
	}
}

// ---------------------------------------------------------------------------------------------
// Monitor 3: lifecycle histories against a model of "currently valid tokens".
// ---------------------------------------------------------------------------------------------

type c35Sess struct {
	id            int
	access        string
	refresh       string
	user, role    string
	kind          string // fresh | older | aged | tokenonly | refreshed | refreshed-from-aged
	accessExpired bool   // by construction (negative-ttl issuer)
	accessBroken  bool   // a refresh result that was already refused when issued (reported once)
	state         string // live | revoked | rotated
	refreshState  string // live | revoked | rotated | unknown | none
	hist          []string
}

func (s *c35Sess) histKey() string {
	h := s.hist
	if len(h) > 4 {
		h = h[len(h)-4:]
	}
	return strings.Join(h, ">")
}

func (m *c35Mon) checkAccess(s *c35Sess, when string, ops []string) {
	ok, u, why := m.validate(s.access)
	fp := fmt.Sprintf("life:validate:%s:%s:expired=%v:%s:%s", s.state, s.kind, s.accessExpired, when, s.histKey())
	d := map[string]any{"session": s.id, "access_token": s.access, "session_kind": s.kind, "model_state": s.state,
		"access_expired_by_construction": s.accessExpired, "accepted": ok, "ops_so_far": append([]string{}, ops...), "lineage_history": append([]string{}, s.hist...)}
	switch {
	case s.accessBroken:
		m.eval(fp, false) // already reported at issue; nothing further is demanded of this token
	case s.state == "live" && !s.accessExpired:
		m.eval(fp, true)
		m.sample("life:validate:live", d)
		if !ok {
			m.sanityFail("live unexpired access token of session %d refused (%s): %s", s.id, s.histKey(), why)
		} else if u.Username != s.user || u.Role != s.role {
			d["accepted_as"] = u
			m.violation("C35:lifecycle:identity:accepted-as-other-user", d)
		}
	case s.state == "live" && s.accessExpired:
		m.eval(fp, true)
		if ok {
			d["expected"] = "rejected (expired)"
			m.violation("C35:expiry:stored-session:accepted-after-exp", d)
		}
		// the server's expired-session cleanup removes the refresh token too (observed, allowed)
		if s.refreshState == "live" {
			s.refreshState = "unknown"
		}
	case s.state == "revoked":
		// non-trivial only when expiry alone would not have rejected it
		m.eval(fp, !s.accessExpired)
		m.sample("life:validate:revoked", d)
		if ok {
			d["expected"] = "rejected (revoked by RevokeToken)"
			m.violation("C35:lifecycle:revoked-access:accepted", d)
		}
	case s.state == "rotated":
		m.eval(fp, !s.accessExpired)
		m.sample("life:validate:rotated", d)
		if ok {
			d["expected"] = "rejected (rotated away by a successful Refresh)"
			m.violation("C35:lifecycle:rotated-access:accepted", d)
		}
	}
}

func (m *c35Mon) doRefresh(s *c35Sess, all *[]*c35Sess, nextID *int, ops []string, when string) {
	if s.refreshState == "none" {
		return
	}
	m.counters["refresh_calls"]++
	na, nr, err := currentTokenFacade().Refresh(m.ctx, s.refresh)
	fp := fmt.Sprintf("life:refresh:%s:%s:expired=%v:%s:%s", s.refreshState, s.kind, s.accessExpired, when, s.histKey())
	d := map[string]any{"session": s.id, "refresh_token": s.refresh, "session_kind": s.kind, "model_refresh_state": s.refreshState,
		"refresh_succeeded": err == nil, "ops_so_far": append([]string{}, ops...), "lineage_history": append([]string{}, s.hist...)}
	if err != nil {
		d["refresh_error"] = err.Error()
	}
	switch s.refreshState {
	case "revoked", "rotated":
		m.eval(fp, true)
		m.sample("life:refresh:"+s.refreshState, d)
		if err == nil {
			if s.refreshState == "revoked" {
				d["expected"] = "refused (session revoked)"
				m.violation("C35:lifecycle:revoked-refresh-token:still-works", d)
			} else {
				d["expected"] = "refused (refresh token already rotated)"
				m.violation("C35:refresh:old-refresh-token:still-works", d)
			}
		}
	default: // live | unknown: the statement only constrains SUCCESSFUL refreshes
		if err != nil {
			m.counters["obs_refresh_refused_for_unrevoked_session"]++
			if s.accessExpired {
				m.counters["obs_refresh_refused_after_access_expiry"]++
			}
			s.refreshState = "unknown"
			s.hist = append(s.hist, "refresh-refused")
			return
		}
	}
	if err != nil {
		return
	}
	// successful refresh: new pair; old access rotated away, old refresh token dead
	m.counters["refresh_succeeded"]++
	*nextID++
	kind := "refreshed"
	if s.accessExpired {
		kind = "refreshed-from-aged"
	}
	child := &c35Sess{id: *nextID, access: na, refresh: nr, user: s.user, role: s.role, kind: kind, state: "live", refreshState: "live",
		hist: append(append([]string{}, s.hist...), "refresh")}
	*all = append(*all, child)
	if s.state == "live" {
		s.state = "rotated"
	}
	if s.refreshState == "live" || s.refreshState == "unknown" {
		s.refreshState = "rotated"
	}
	s.hist = append(s.hist, "refresh")

	// (i) the new access token must be valid when issued
	ok, u, why := m.validate(na)
	fpi := "life:refresh-result:valid-when-issued:" + kind + ":" + s.histKey()
	m.eval(fpi, true)
	di := map[string]any{"old_session": s.id, "old_refresh_token": s.refresh, "old_access_expired": s.accessExpired,
		"new_access_token": na, "accepted": ok, "ops_so_far": append([]string{}, ops...)}
	if raw, e := base64.RawURLEncoding.DecodeString(strings.Split(na+"..", ".")[1]); e == nil {
		var cl signedAccessClaims
		if json.Unmarshal(raw, &cl) == nil {
			di["new_access_claims"] = cl
			di["now_unix"] = time.Now().Unix()
			if s.kind == "older" { // observation only (not demanded by the statement): does refresh renew the lifetime?
				m.counters["obs_refresh_of_older_session"]++
				if cl.ExpiresAt <= cl.IssuedAt+int64(c35FreshTTLMinutes*60)-3000 {
					m.counters["obs_refresh_did_not_extend_expiry"]++
				}
			}
		}
	}
	m.sample("life:refresh-result:"+kind, di)
	if !ok {
		di["reject_reason"] = why
		di["expected"] = "accepted (valid when issued)"
		child.accessBroken = true
		if s.accessExpired {
			m.violation("C35:refresh:after-access-expiry:new-access-invalid-when-issued", di)
		} else {
			m.violation("C35:refresh:unexpired-session:new-access-invalid-when-issued", di)
		}
	} else if u.Username != s.user || u.Role != s.role {
		di["accepted_as"] = u
		m.violation("C35:refresh:identity:new-access-for-other-user", di)
	}
	// (ii) the old refresh token must stop working
	_, _, err2 := currentTokenFacade().Refresh(m.ctx, s.refresh)
	m.counters["refresh_calls"]++
	m.eval("life:refresh-result:old-refresh-dead:"+kind+":"+s.histKey(), true)
	if err2 == nil {
		m.violation("C35:refresh:old-refresh-token:still-works", map[string]any{"old_refresh_token": s.refresh, "ops_so_far": append([]string{}, ops...), "expected": "second Refresh with the same token refused"})
	}
	// (iii) the old access token is "rotated away"
	m.checkAccess(s, "right-after-refresh", ops)
}

func (m *c35Mon) monitorLifecycle() {
	users := []struct{ u, r string }{{"root", "admin"}, {"alice", "user"}, {"Bob Smith", "user"}, {"guest-1", "guest"}, {`q"uote`, "user"}, {"ünï", "guest"}}
	seqs := m.pick(60, 300)
	nextID := 0
	for q := 0; q < seqs; q++ {
		var all []*c35Sess
		var ops []string
		nops := m.pick(16, 24)
		pickSess := func(pred func(*c35Sess) bool) *c35Sess {
			var c []*c35Sess
			for _, s := range all {
				if pred == nil || pred(s) {
					c = append(c, s)
				}
			}
			if len(c) == 0 {
				return nil
			}
			return c[m.rnd.Intn(len(c))]
		}
		for o := 0; o < nops; o++ {
			x := m.rnd.Intn(100)
			if len(all) == 0 {
				x = m.rnd.Intn(30)
			}
			id := users[m.rnd.Intn(len(users))]
			switch {
			case x < 14: // login
				a, r, err := currentTokenFacade().CreateSession(m.ctx, id.u, id.r)
				if err != nil {
					m.sanityFail("CreateSession: %v", err)
					continue
				}
				nextID++
				s := &c35Sess{id: nextID, access: a, refresh: r, user: id.u, role: id.r, kind: "fresh", state: "live", refreshState: "live", hist: []string{"create"}}
				all = append(all, s)
				ops = append(ops, fmt.Sprintf("create#%d", s.id))
				m.checkAccess(s, "when-issued", ops)
			case x < 24: // a login that happened (h + 6) hours ago: access expired h hours ago, refresh token alive
				h := 1 + m.rnd.Intn(48)
				st := &SessionStore{ttl: -time.Duration(h) * time.Hour, refreshTTL: defaultRefreshTTL}
				a, r, err := st.CreateSession(m.ctx, id.u, id.r)
				if err != nil {
					m.sanityFail("CreateSession(aged): %v", err)
					continue
				}
				nextID++
				s := &c35Sess{id: nextID, access: a, refresh: r, user: id.u, role: id.r, kind: "aged", accessExpired: true, state: "live", refreshState: "live", hist: []string{"create-aged"}}
				all = append(all, s)
				ops = append(ops, fmt.Sprintf("create-aged#%d(-%dh)", s.id, h))
			case x < 27: // a login that happened a few hours ago and is still unexpired (>= 1 h left)
				h := 1 + m.rnd.Intn(4)
				st := &SessionStore{ttl: time.Duration(h) * time.Hour, refreshTTL: defaultRefreshTTL}
				a, r, err := st.CreateSession(m.ctx, id.u, id.r)
				if err != nil {
					m.sanityFail("CreateSession(older): %v", err)
					continue
				}
				nextID++
				s := &c35Sess{id: nextID, access: a, refresh: r, user: id.u, role: id.r, kind: "older", state: "live", refreshState: "live", hist: []string{"create-older"}}
				all = append(all, s)
				ops = append(ops, fmt.Sprintf("create-older#%d(+%dh left)", s.id, h))
				m.checkAccess(s, "when-issued", ops)
			case x < 30: // access token without refresh token
				a, err := currentTokenFacade().CreateToken(m.ctx, id.u, id.r)
				if err != nil {
					m.sanityFail("CreateToken: %v", err)
					continue
				}
				nextID++
				s := &c35Sess{id: nextID, access: a, user: id.u, role: id.r, kind: "tokenonly", state: "live", refreshState: "none", hist: []string{"create-token"}}
				all = append(all, s)
				ops = append(ops, fmt.Sprintf("create-token#%d", s.id))
				m.checkAccess(s, "when-issued", ops)
			case x < 55: // present an access token (any state)
				s := pickSess(nil)
				ops = append(ops, fmt.Sprintf("validate#%d", s.id))
				m.checkAccess(s, "later", ops)
				s.hist = append(s.hist, "validate")
			case x < 80: // refresh (any state, dead refresh tokens included)
				s := pickSess(func(s *c35Sess) bool { return s.refreshState != "none" })
				if s == nil {
					continue
				}
				ops = append(ops, fmt.Sprintf("refresh#%d", s.id))
				m.doRefresh(s, &all, &nextID, ops, "later")
			default: // logout: revoke by access token
				s := pickSess(nil)
				ops = append(ops, fmt.Sprintf("revoke#%d", s.id))
				m.counters["revoke_calls"]++
				currentTokenFacade().RevokeToken(m.ctx, s.access)
				if s.state == "live" {
					// revoking an access token that was already rotated away is a no-op for the model
					s.state = "revoked"
					if s.refreshState != "none" {
						s.refreshState = "revoked"
					}
				}
				s.hist = append(s.hist, "revoke")
				m.checkAccess(s, "right-after-revoke", ops)
			}
		}
		// final sweep: every access token once more, every dead refresh token once more
		ops = append(ops, "final-sweep")
		n := len(all)
		for i := 0; i < n; i++ {
			s := all[i]
			m.checkAccess(s, "final-sweep", ops)
			if s.refreshState == "revoked" || s.refreshState == "rotated" {
				m.doRefresh(s, &all, &nextID, ops, "final-sweep")
			}
		}
		m.counters["lifecycle_sequences"]++
		m.counters["lifecycle_sessions"] += int64(len(all))
		if q < 2 {
			m.samples = append(m.samples, map[string]any{"class": "life:sequence", "ops": ops})
		}
	}
}

// ---------------------------------------------------------------------------------------------
// Observations that are deliberately NOT verdicts (weaker reading of the statement chosen).
// ---------------------------------------------------------------------------------------------

func (m *c35Mon) observations(saved Config) {
	// (1) a refresh token presented as a bearer access token (store fallback accepts any key of the table)
	if _, rt, err := currentTokenFacade().CreateSession(m.ctx, "root", "admin"); err == nil {
		m.counters["obs_refresh_token_presented_as_access"]++
		if ok, _, _ := m.validate(rt); ok {
			m.counters["obs_refresh_token_accepted_as_access"]++
		}
	}
	// (2) secret rotation: a token the server issued under the previous secret, still in the table
	if a, err := currentTokenFacade().CreateToken(m.ctx, "root", "admin"); err == nil {
		config.SessionSecret = m.secret + "-rotated"
		m.counters["obs_old_secret_token_presented"]++
		if ok, _, _ := m.validate(a); ok {
			m.counters["obs_old_secret_stored_token_accepted"]++
		}
		// a token under the previous secret that is NOT in the table is a forgery under the current secret
		jti, _ := newToken()
		config.SessionSecret = m.secret
		tok, _ := signAccessToken("root", "admin", time.Now().Add(-time.Hour), time.Now().Add(5*time.Hour), jti)
		config.SessionSecret = m.secret + "-rotated"
		ok, _, _ := m.validate(tok)
		m.eval("forge:other-secret:previous-secret-unstored", true)
		if ok {
			m.violation("C35:forgery:other-secret:accepted", map[string]any{"token": tok, "signed_with": m.secret, "current_secret": config.SessionSecret})
		}
		config.SessionSecret = m.secret
	}
}

func TestVerifC35(t *testing.T) {
	start := time.Now()
	seed := int64(1)
	if v, err := strconv.ParseInt(os.Getenv("VERIF_SEED"), 10, 64); err == nil {
		seed = v
	}
	tier := os.Getenv("VERIF_TIER")
	if tier != "thorough" {
		tier = "quick"
	}
	slog.SetDefault(slog.New(slog.NewTextHandler(io.Discard, &slog.HandlerOptions{Level: slog.LevelError + 10})))

	dbDir := os.Getenv("VERIF_C35_DB")
	if dbDir == "" {
		dbDir = t.TempDir()
	} else if err := os.MkdirAll(dbDir, 0o755); err != nil {
		t.Fatalf("scratch db dir: %v", err)
	}
	// isolate the process-wide auth state (same recipe as the package's own withIsolatedSessionStore)
	oldConfig, oldFacade := config, tokenFacade
	oldEnv, hadEnv := os.LookupEnv("SOP_SESSION_SECRET")
	os.Unsetenv("SOP_SESSION_SECRET")
	secret := fmt.Sprintf("verif-c35-secret-%d", seed)
	config = Config{
		SystemDB:               &DatabaseConfig{Name: SystemDBName, Path: dbDir, Mode: "standalone"},
		SessionSecret:          secret,
		SessionTokenTTLMinutes: c35FreshTTLMinutes,
	}
	tokenFacade = nil
	tokenFacadeOnce = sync.Once{}
	defer func() {
		config, tokenFacade = oldConfig, oldFacade
		tokenFacadeOnce = sync.Once{}
		if hadEnv {
			os.Setenv("SOP_SESSION_SECRET", oldEnv)
		}
	}()

	h := fnv.New64a()
	h.Write([]byte("c35"))
	m := &c35Mon{seed: seed, tier: tier, ctx: context.Background(), secret: secret,
		rnd: rand.New(rand.NewSource(seed*1000003 + int64(h.Sum64()&0x7fffffffffff))),
		fps: map[string]int64{}, issued: map[string]bool{}, sampleCls: map[string]int{}, counters: map[string]int64{}, vioCount: map[string]int64{}}

	if string(tokenSigningSecret()) != secret {
		m.sanityFail("server does not use the configured secret")
	}
	t0 := time.Now()
	m.monitorForgery()
	m.counters["ms_forgery"] = time.Since(t0).Milliseconds()
	t0 = time.Now()
	m.monitorExpiry()
	m.counters["ms_expiry"] = time.Since(t0).Milliseconds()
	t0 = time.Now()
	m.monitorLifecycle()
	m.counters["ms_lifecycle"] = time.Since(t0).Milliseconds()
	m.observations(oldConfig)

	rule := "Real tools/httpserver auth code (package main, go test -overlay), observed at currentTokenFacade().ValidateToken/Refresh. " +
		"forgery: tokens issued by CreateSession/Refresh/CreateToken, then every single-character substitution of every part, every-position deletion/insertion, " +
		"every truncation, part permutations/duplications/empty parts/mixes with another issued token, re-signing with foreign secrets, crafted claims, alg=none, other signature encodings; " +
		"expiry: server-signed tokens with exp whole hours (1..96) before/after now, and sessions issued through CreateSession/CreateToken by a store with a negative access TTL; " +
		"lifecycle: PRNG-generated sequences of create / create-aged / create-token / validate / refresh / revoke plus a final sweep, checked against a model of valid tokens. " +
		"A case class (fingerprint) = monitor : mutation-or-operation : part/state/session-kind : position/hours bucket or last <=4 operations of the session lineage. " +
		"Non-trivial = the verdict is attributable to the condition under test: the unmodified base token was accepted, and a revoked/rotated token was not also expired; distinct_nontrivial = number of distinct non-trivial classes."
	assumptions := []string{
		"go test -overlay compiles the monitor into package main of tools/httpserver without editing the tree; the system DB is a scratch folder (config.SystemDB), standalone mode",
		"time is not virtualised: expired/unexpired instants are whole hours from now; 'a session whose access token expired h hours ago' is produced by issuing it through a SessionStore with ttl=-h hours and refreshing through the normal facade (ttl 6 h)",
		"logout = SessionStore.RevokeToken(access token) (no HTTP logout endpoint exists in the tree); revocation by refresh token is not exercised",
		"single-threaded histories only; concurrency of the session table is not explored",
		"not asserted (observed counters obs_*): refresh refused for an unrevoked session, refresh not extending the expiry, a refresh token accepted as bearer token, tokens issued under a previous secret that are still in the session table, expired refresh tokens",
	}
	var total int64
	for _, n := range m.vioCount {
		total += n
	}
	cov := map[string]any{
		"evaluations": m.evals, "distinct_nontrivial": len(m.fps), "rule": rule, "samples": m.samples,
		"trivial_evaluations": m.trivial, "counters": m.counters, "violation_counts": m.vioCount, "sanity_failures": len(m.sanity),
	}
	wall := time.Since(start).Seconds()
	ev := map[string]any{"property_id": "C35", "tier": tier, "seed": seed, "level": "exploration", "coverage": cov,
		"assumptions": assumptions, "wall_s": wall, "violations": total}
	evPath := os.Getenv("VERIF_C35_EVIDENCE")
	if evPath == "" {
		evPath = "/verif/evidence/C35.json"
	}
	if b, err := json.MarshalIndent(ev, "", " "); err == nil {
		if err := os.WriteFile(evPath, b, 0o644); err != nil {
			fmt.Printf("C35-SANITY cannot write evidence %s: %v\n", evPath, err)
		}
	}
	sum := map[string]any{"evaluations": m.evals, "trivial": m.trivial, "fingerprints": m.fps, "samples": m.samples, "counters": m.counters,
		"violation_counts": m.vioCount, "sanity_failures": len(m.sanity), "rule": rule, "assumptions": assumptions, "wall_s": wall}
	b, _ := json.Marshal(sum)
	fmt.Printf("C35-SUMMARY %s\n", b)
}
