#!/bin/bash
# The repository's own test suite with the verif guard OFF (no -tags). Mirrors BASELINE.json's cmd.
# Output: go test -json stream on stdout (one module after another).
export GOPROXY=off GOSUMDB=off GOTOOLCHAIN=local
GO=go1.26.8
for m in . ./adapters/cassandra ./adapters/redis ./ai ./incfs ./infs ./jsondb ./search; do
  ( cd /repo/$m || exit 1
    gw=$($GO env GOWORK 2>/dev/null); MF=""
    if [ -z "$gw" ] || [ "$gw" = off ]; then MF="-mod=mod"; fi
    $GO test $MF -json -vet=off -count=1 -timeout 25m ./... )
done
