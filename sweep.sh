#!/bin/bash
# sweep.sh <tier> <seed> [ids...]  — runs the checks one after the other, prints one summary line each
TIER="$1"; SEED="$2"; shift 2
IDS="$@"; [ -z "$IDS" ] && IDS=$(python3 -c "import json;print(' '.join(c['property_id'] for c in json.load(open('/verif/MANIFEST.json'))['checks']))")
for c in $IDS; do
  t0=$(date +%s)
  VERIF_SEED=$SEED timeout 2400 /verif/check $c --tier $TIER > /tmp/sweep-$c-$TIER-$SEED.log 2>&1; rc=$?
  t1=$(date +%s)
  echo "$c tier=$TIER seed=$SEED rc=$rc secs=$((t1-t0)) viol=$(grep -c '^VIOLATION' /tmp/sweep-$c-$TIER-$SEED.log) $(grep -m1 'BROKEN-RUN' /tmp/sweep-$c-$TIER-$SEED.log | cut -c1-120) | $(tail -1 /tmp/sweep-$c-$TIER-$SEED.log | cut -c1-160)"
done
