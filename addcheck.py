#!/usr/bin/env python3
"""addcheck.py <id> <level> <technique> <text> <note>  — registers/updates a check in checks.json and regenerates MANIFEST.json"""
import json, sys, subprocess
cid, level, technique, text, note = sys.argv[1:6]
spec = json.load(open('/verif/checks.json'))
spec['checks'] = [c for c in spec['checks'] if c['id'] != cid]
spec['checks'].append({"id": cid, "level": level, "technique": technique, "text": text, "note": note})
spec['checks'].sort(key=lambda c: c['id'])
spec['not_applicable'] = [n for n in spec['not_applicable'] if n['property_id'] != cid]
eng = spec['engines'][0]
eng['serves_properties'] = [c['id'] for c in spec['checks']]
json.dump(spec, open('/verif/checks.json', 'w'), indent=1)
subprocess.run(['/verif/gen_manifest.py'], check=True)
